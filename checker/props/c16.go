package props

import (
	"go/ast"
	"go/types"
	"regexp"
	"sort"
	"strings"

	"verifcheck/an"
)

func init() {
	All["C16"] = &Prop{
		Run: c16,
		Level: "Structural necessary conditions of a well-formed catalogue: identifier counters are only ever incremented (or restored from a snapshot); every entity identifier is taken from its counter in the function that increments it (frozen copy/restore exceptions); group slices are re-sorted after every append before the function returns; " +
			"the end-of-time clamp of shard and index groups is the half-open bound MaxNanoTime+1 at all sibling sites; in the catalogue methods reachable from the apply handlers no error is returned after shared state was modified (frozen, individually triaged exceptions). " +
			"the shard-group lookup behind 'creation is a no-op' scans every group and answers only with a live group that contains the timestamp; per-name version counters are never deleted; NOT decided: disjointness and duration alignment of group spans (timestamp arithmetic), validity of cross-object references.",
		Assumptions: append([]string{"effect analysis is intraprocedural with transitive mutator summaries over static calls; aliases are tracked through local definitions only"}, commonAssumptions...),
		Technique:   "static analysis: who-may-write tables, definition provenance, post-dominance pairing on go/cfg, effect (mutation) analysis with must-not-follow error returns",
		Rules:       "C16.R1 R2 R3 R4 R5 R6",
	}
}

func c16(c *an.Ctx) {
	const M = metaPkg
	copyFns := map[string]string{
		"unmarshal": "restore from snapshot", "Unmarshal": "restore from snapshot", "clone": "deep copy", "Clone": "deep copy",
		"importOneDB": "import of an exported database (re-numbers with the counters, checked as a normal site)",
		"RecoverMeta": "disaster recovery: rebuilds the catalogue from the files found on the stores", "doHandleNodes": "disaster recovery",
	}
	// ---------------------------------------------------------------- R1
	{
		r := c.Rule("C16.R1", "K-WHOWRITES+K-PROVENANCE", M+": id counters only grow; every entity id is the value of its counter, taken in the function that increments it")
		counters := []string{"MaxShardGroupID", "MaxShardID", "MaxMstID", "MaxIndexGroupID", "MaxIndexID", "MaxStreamID", "MaxNodeID", "MaxDownSampleID", "MaxEventOpId", "MaxConnID", "MaxSubscriptionID", "MaxCQChangeID"}
		for _, cn := range counters {
			o := obj(r, M+":Data."+cn)
			c.WhoWrites(r, o, "Data."+cn, an.Allowed{
				M + ":(*Data).Unmarshal": "restore from snapshot",
			}, func(s an.StoreSite) bool {
				if s.How == "incdec" {
					if ids, ok := s.Node.(*ast.IncDecStmt); ok && ids.Tok.String() == "++" {
						return true
					}
				}
				if s.Caller == nil || !an.InPkg(s.Caller, M, "app/ts-meta/meta") {
					return true // client-side caches and tools hold copies of the catalogue; only the meta service allocates ids
				}
				if s.How == "literal" && strings.HasSuffix(s.Caller.Name(), ":NewStore") {
					return true
				}
				return false
			})
		}
		type ent struct{ field, counter string }
		for _, e := range []ent{
			{"ShardGroupInfo.ID", "MaxShardGroupID"}, {"ShardInfo.ID", "MaxShardID"}, {"IndexGroupInfo.ID", "MaxIndexGroupID"},
			{"IndexInfo.ID", "MaxIndexID"}, {"StreamInfo.ID", "MaxStreamID"}, {"MeasurementInfo.ID", "MaxMstID"},
		} {
			fo := obj(r, M+":"+e.field)
			co := obj(r, M+":Data."+e.counter)
			if fo == nil || co == nil {
				continue
			}
			n := 0
			for _, st := range c.P.StoresTo(fo) {
				if st.Caller == nil || st.How == "addr" {
					continue
				}
				name := st.Caller.Obj.Name()
				if !an.InPkg(st.Caller, M, "app/ts-meta/meta") {
					r.Except(e.field+" in "+st.Caller.Name(), "outside the catalogue packages: builds a transient value, not catalogue state")
					continue
				}
				if reason, ok := copyFns[name]; ok && name != "importOneDB" {
					r.Except(e.field+" in "+st.Caller.Name(), reason)
					continue
				}
				n++
				f := c.P.Fn(st.Caller)
				// the store may sit in a function literal (walk callbacks): analyse that literal
				if lit := f.LitContaining(an.MNode("the id store", func(_ *an.Fn, x ast.Node) bool { return x == st.Node })); lit != nil {
					f = f.Lit(lit, "idsite")
				}
				if st.Rhs == nil {
					r.Fail(e.field+" in "+st.Caller.Name()+": source", c.P.Pos(st.Node.Pos()), "cannot determine the assigned value")
					continue
				}
				rhs := f.Canon(st.Rhs)
				want := regexp.MustCompile(`^((recv|p\d+)\.` + e.counter + `|\((recv|p\d+)\.` + e.counter + `-1\)|\(1\+(recv|p\d+)\.` + e.counter + `\))$`)
				if !want.MatchString(rhs) {
					// the id may arrive through a parameter: then every caller must pass the counter and increment it
					if pm := regexp.MustCompile(`^p(\d+)$`).FindStringSubmatch(rhs); pm != nil {
						okAll := true
						callers := c.P.CallsTo(st.Caller.Obj)
						for _, cs := range callers {
							if cs.Caller == nil {
								continue
							}
							g := c.P.Fn(cs.Caller)
							idx := int(pm[1][0] - '0')
							if idx >= len(cs.Call.Args) || !want.MatchString(g.Canon(cs.Call.Args[idx])) {
								okAll = false
								r.Fail(e.field+" via "+st.Caller.Name()+" from "+cs.Caller.Name(), c.P.Pos(cs.Call.Pos()), "%s receives its id from %s, which does not pass Data.%s", e.field, cs.Caller.Name(), e.counter)
								continue
							}
							inc := g.Find(an.MNode(e.counter+"++", func(f *an.Fn, n ast.Node) bool {
								ids, ok := n.(*ast.IncDecStmt)
								return ok && ids.Tok.String() == "++" && refIs(f, ids.X, co)
							}))
							if inc.Len() == 0 {
								okAll = false
								r.Fail(e.field+" via "+st.Caller.Name()+" from "+cs.Caller.Name()+": no increment", c.P.Pos(cs.Call.Pos()), "%s takes Data.%s as the new id but never increments the counter: the id is handed out twice", cs.Caller.Name(), e.counter)
							} else if vid := g.VertexOf(cs.Call); vid >= 0 {
								// post-increment idiom: once the value was taken, every way out of the function passes the increment
								one := &an.Sites{F: g, Desc: e.field + " ← " + e.counter, List: []an.Site{{V: vid, Node: cs.Call}}}
								if g.FPath([]int{g.G.Entry}, vid, inc.Vs(), nil) != nil {
									if !g.FollowedBy(r, one, inc, nil, e.field+" taken from "+e.counter+" ⇒ counter incremented on every way out") {
										okAll = false
									}
								}
							}
						}
						if okAll && len(callers) > 0 {
							continue
						}
					}
					r.Fail(e.field+" in "+st.Caller.Name()+": source", c.P.Pos(st.Node.Pos()), "%s is assigned %s, not the value of the counter Data.%s", e.field, rhs, e.counter)
					continue
				}
				inc := f.Find(an.MNode(e.counter+"++", func(f *an.Fn, n ast.Node) bool {
					ids, ok := n.(*ast.IncDecStmt)
					return ok && ids.Tok.String() == "++" && refIs(f, ids.X, co)
				}))
				if inc.Len() == 0 {
					r.Fail(e.field+" in "+st.Caller.Name()+": no increment", c.P.Pos(st.Node.Pos()), "%s takes Data.%s as a new id but the function never increments the counter: the id is handed out twice", st.Caller.Name(), e.counter)
					continue
				}
				if vid := f.VertexOf(st.Node); vid >= 0 {
					one := &an.Sites{F: f, Desc: e.field + " = " + e.counter, List: []an.Site{{V: vid, Node: st.Node}}}
					// pre-increment idiom (inc ≺ store) or post-increment idiom (store then inc on every path)
					if f.FPath([]int{f.G.Entry}, vid, inc.Vs(), nil) != nil {
						f.FollowedBy(r, one, inc, nil, e.field+" taken from "+e.counter+" ⇒ counter incremented before returning")
					} else {
						r.AddSites(1)
					}
				}
			}
			r.AddSites(n)
		}
		r.Floor(20, "counter / id sites")
	}
	// ---------------------------------------------------------------- R2
	{
		r := c.Rule("C16.R2", "K-ORDER(post-dominance)", M+": every append to a policy's shard-group / index-group slice is followed by a sort of that slice before the function returns")
		for _, fld := range []string{"RetentionPolicyInfo.ShardGroups", "RetentionPolicyInfo.IndexGroups"} {
			fo := obj(r, M+":"+fld)
			if fo == nil {
				continue
			}
			seen := map[string]bool{}
			for _, st := range c.P.StoresTo(fo) {
				if st.Caller == nil || st.How != "assign" || seen[st.Caller.Name()] {
					continue
				}
				if _, ok := copyFns[st.Caller.Obj.Name()]; ok {
					continue
				}
				f := c.P.Fn(st.Caller)
				app := f.Find(an.MStore(fld+" = append(…new group…)", fo, func(f *an.Fn, e ast.Expr) bool {
					ce, ok := ast.Unparen(e).(*ast.CallExpr)
					if !ok || len(ce.Args) < 2 {
						return false
					}
					id, ok := ce.Fun.(*ast.Ident)
					if !ok || id.Name != "append" || ce.Ellipsis.IsValid() {
						return false
					}
					return refIs(f, ce.Args[0], fo)
				}))
				if app.Len() == 0 {
					continue // removal or re-slicing keeps the order
				}
				seen[st.Caller.Name()] = true
				srt := f.Find(an.MNode("sort of "+fld, func(f *an.Fn, n ast.Node) bool {
					ce, ok := n.(*ast.CallExpr)
					if !ok || len(ce.Args) < 1 {
						return false
					}
					cal := an.Callee(f.Info, ce)
					if cal == nil || cal.Pkg() == nil || cal.Pkg().Path() != "sort" {
						return false
					}
					found := false
					ast.Inspect(ce.Args[0], func(m ast.Node) bool {
						if e, ok := m.(ast.Expr); ok && refIs(f, e, fo) {
							found = true
						}
						return true
					})
					return found
				}))
				f.FollowedBy(r, app, srt, nil, fld+" appended ⇒ sorted before returning")
			}
		}
		r.Floor(3, "append sites")
	}
	// ---------------------------------------------------------------- R4
	{
		r := c.Rule("C16.R4", "K-CONTRACT(siblings)", M+": groups that would end beyond the last representable instant end at MaxNanoTime+1 (half-open spans) at every site")
		for _, spec := range []string{M + ":Data.newShardGroup", M + ":Data.CreateIndexGroup", M + ":Data.GetTierOfShardGroup", M + ":Data.createIndexGroup", M + ":Data.CreateShardGroupWithBounds"} {
			f := c.P.Fn(c.P.FuncSpec(spec))
			if f == nil {
				continue
			}
			clamps := f.Find(an.MNode("end-time clamp", func(f *an.Fn, n ast.Node) bool {
				as, ok := n.(*ast.AssignStmt)
				if !ok || len(as.Lhs) != 1 || len(as.Rhs) != 1 {
					return false
				}
				return strings.Contains(f.Canon(as.Rhs[0]), "models.MaxNanoTime")
			}))
			if clamps.Len() == 0 {
				continue
			}
			r.AddSites(clamps.Len())
			for _, s := range clamps.List {
				as := s.Node.(*ast.AssignStmt)
				if rhs := f.Canon(as.Rhs[0]); rhs != "time.Unix(0,(1+models.MaxNanoTime))" {
					r.Fail(f.Name+": clamp value", c.P.Pos(as.Pos()), "the end of the last group is clamped to %s; spans are half-open, so it must be MaxNanoTime+1 (a group ending at MaxNanoTime does not contain that instant and is re-created on every write at it)", rhs)
				}
				one := &an.Sites{F: f, Desc: "clamp", List: []an.Site{s}}
				f.Guarded(r, one, "clamp applies only when the computed end is after MaxNanoTime", an.AtomLike(`^time\.Unix\(0,models\.MaxNanoTime\)<`, true))
			}
		}
		r.Floor(3, "clamp sites")
	}
	// ---------------------------------------------------------------- R3
	effectOrder(c)
}

// effectOrder is C16.R3: no error after mutation in the catalogue methods reachable from apply.
func effectOrder(c *an.Ctx) {
	const M = metaPkg
	r := c.Rule("C16.R3", "K-EFFECT(no error after mutation)", M+": in the catalogue methods reachable from the apply handlers, no path leads from a modification of shared state to the return of an error")
	mut := c.P.Mutators(M)
	// reachable set from apply handlers (functions of M called from app/ts-meta/meta fsm handlers)
	reach := map[*types.Func]bool{}
	var work []*types.Func
	for _, d := range c.P.AllDecls() {
		if an.InPkg(d, "app/ts-meta/meta") && strings.HasPrefix(d.Obj.Name(), "apply") {
			work = append(work, d.Obj)
			reach[d.Obj] = true
		}
	}
	for len(work) > 0 {
		fo := work[len(work)-1]
		work = work[:len(work)-1]
		src := c.P.Src(fo)
		if src == nil || !(an.InPkg(src, M) || an.InPkg(src, "app/ts-meta/meta")) {
			continue
		}
		f := c.P.Fn(src)
		ast.Inspect(f.Body, func(n ast.Node) bool {
			if ce, ok := n.(*ast.CallExpr); ok {
				if cal := an.Callee(f.Info, ce); cal != nil && !reach[cal] {
					reach[cal] = true
					work = append(work, cal)
				}
			}
			return true
		})
	}
	exceptions := effectExceptions()
	var names []string
	n := 0
	for fo := range reach {
		src := c.P.Src(fo)
		if src == nil || !an.InPkg(src, M) {
			continue
		}
		f := c.P.Fn(src)
		if f.Recv == nil || !strings.HasSuffix(f.Recv.Type().String(), "meta.Data") {
			continue
		}
		if idx := errIdx(f); idx < 0 {
			continue
		}
		n++
		sites := f.MutationSites(mut)
		if len(sites) == 0 {
			continue
		}
		errRets := f.Find(an.MReturn("of a possibly non-nil error", func(f *an.Fn, rs *ast.ReturnStmt) bool {
			idx := errIdx(f)
			if len(rs.Results) <= idx {
				return false
			}
			return !an.IsNilIdent(f.Info, rs.Results[idx])
		}))
		bad := ""
		for _, mn := range sites {
			vid := f.VertexOf(mn)
			if vid < 0 {
				continue
			}
			for _, er := range errRets.List {
				// `return err` right after `err = mutate()` is the mutation's own failure report: the callee decides
				if p := f.FPath(f.G.Vs[vid].Succ, er.V, nil, nil); p != nil {
					if reportsOwnError(f, mn, er) {
						continue
					}
					if rangeKeyLookupMiss(f, er.Node) {
						continue // `for k := range m { v, ok := m[k]; if !ok { return err } }`: the branch is dead
					}
					bad = c.P.Pos(mn.Pos()) + " → " + c.P.Pos(er.Node.Pos())
					break
				}
			}
			if bad != "" {
				break
			}
		}
		if bad == "" {
			continue
		}
		names = append(names, src.Name())
		if reason, ok := exceptions[src.Name()]; ok {
			r.Except(src.Name(), reason)
			continue
		}
		r.Fail(src.Name()+": error after mutation", c.P.Pos(src.Decl.Pos()), "%s modifies the catalogue (%s) and can still return an error afterwards: the failed command leaves the catalogue changed, and a replica that restores a snapshot taken in between diverges", src.Name(), bad)
	}
	sort.Strings(names)
	r.AddSites(n)
	c.Extra["methods_checked_for_error_after_mutation"] = n
	r.Floor(60, "catalogue methods reachable from apply")
}

func errIdx(f *an.Fn) int {
	if f.Type.Results == nil {
		return -1
	}
	i := 0
	idx := -1
	for _, fld := range f.Type.Results.List {
		k := len(fld.Names)
		if k == 0 {
			k = 1
		}
		if t := f.Info.TypeOf(fld.Type); t != nil && types.Identical(t, types.Universe.Lookup("error").Type()) {
			idx = i + k - 1
		}
		i += k
	}
	return idx
}

// reportsOwnError: the error returned is the result of the mutating call itself
// (`if err := data.mutate(); err != nil { return err }` or `return data.mutate()`).
func reportsOwnError(f *an.Fn, mutation ast.Node, ret an.Site) bool {
	ce, ok := mutation.(*ast.CallExpr)
	if !ok {
		return false
	}
	rs := ret.Node.(*ast.ReturnStmt)
	idx := errIdx(f)
	if len(rs.Results) <= idx {
		return false
	}
	// return f(...) directly
	contains := false
	ast.Inspect(rs.Results[idx], func(n ast.Node) bool {
		if n == ast.Node(ce) {
			contains = true
		}
		return true
	})
	if contains {
		return true
	}
	// `err = mutate(); return err` / `x, err := mutate(); return x, err`: the statement right before the return
	if id, ok := ast.Unparen(rs.Results[idx]).(*ast.Ident); ok {
		mv := f.G.Vs[f.VertexOf(ce)]
		if as, isAs := mv.Node.(*ast.AssignStmt); isAs && len(mv.Succ) == 1 {
			nxt := mv.Succ[0]
			for f.G.Vs[nxt].Kind != an.VNode && len(f.G.Vs[nxt].Succ) == 1 {
				nxt = f.G.Vs[nxt].Succ[0]
			}
			if nxt == ret.V {
				for _, l := range as.Lhs {
					if refObjOf(f, l) == f.Info.Uses[id] {
						return true
					}
				}
			}
		}
	}
	// error variable assigned from the call and tested right after it
	s := an.Site{V: f.VertexOf(ce), Node: ce}
	cv, res := f.ResultCond(s)
	if cv == nil {
		return false
	}
	id, ok := ast.Unparen(rs.Results[idx]).(*ast.Ident)
	if !ok || f.Info.Uses[id] != res {
		return false
	}
	// the return must be on the failure edge of that test
	e, ok2 := f.SuccessEdge(s)
	if !ok2 {
		return false
	}
	fail := cv.TrueSucc
	if e[1] == cv.TrueSucc {
		fail = cv.FalseSucc
	}
	return f.FPath([]int{fail}, ret.V, nil, nil) != nil && f.FPath([]int{e[1]}, ret.V, map[int]bool{}, nil) == nil
}

func effectExceptions() map[string]string {
	return map[string]string{
		metaPkg + ":(*Data).CreateContinuousQuery": "returns the (insert=false, err) result of CreateContinuousQueryBase, which only stores the query on the path that returns insert=true, nil (that function is checked itself)",
	}
}

// rangeKeyLookupMiss recognises an error return that is guarded by the miss of a
// map lookup whose key is the range variable of an enclosing loop over the same
// map: `for k := range m { v, ok := m[k]; if !ok { return err } }`.  The branch
// cannot be taken, so it is not an exit of the function.
func rangeKeyLookupMiss(f *an.Fn, ret ast.Node) bool {
	var ifs *ast.IfStmt
	for p := f.Parent(ret); p != nil; p = f.Parent(p) {
		if x, ok := p.(*ast.IfStmt); ok {
			ifs = x
			break
		}
	}
	if ifs == nil {
		return false
	}
	un, ok := ast.Unparen(ifs.Cond).(*ast.UnaryExpr)
	if !ok || un.Op.String() != "!" {
		return false
	}
	okID, ok := ast.Unparen(un.X).(*ast.Ident)
	if !ok {
		return false
	}
	okObj := f.Info.Uses[okID]
	if okObj == nil {
		return false
	}
	// the single definition of ok: `v, ok := M[k]`
	var look *ast.IndexExpr
	defs := 0
	ast.Inspect(f.Body, func(n ast.Node) bool {
		as, isAs := n.(*ast.AssignStmt)
		if !isAs || len(as.Lhs) != 2 || len(as.Rhs) != 1 {
			return true
		}
		id, isID := as.Lhs[1].(*ast.Ident)
		if !isID || f.Info.ObjectOf(id) != okObj {
			return true
		}
		defs++
		if ix, isIx := ast.Unparen(as.Rhs[0]).(*ast.IndexExpr); isIx {
			look = ix
		}
		return true
	})
	if defs != 1 || look == nil {
		return false
	}
	kID, ok := ast.Unparen(look.Index).(*ast.Ident)
	if !ok {
		return false
	}
	kObj := f.Info.Uses[kID]
	for p := f.Parent(look); p != nil; p = f.Parent(p) {
		rs, isR := p.(*ast.RangeStmt)
		if !isR {
			continue
		}
		rk, isID := rs.Key.(*ast.Ident)
		if isID && f.Info.ObjectOf(rk) == kObj && types.ExprString(rs.X) == types.ExprString(look.X) {
			return true
		}
	}
	return false
}

func init() {
	old := All["C16"].Run
	All["C16"].Run = func(c *an.Ctx) {
		old(c)
		c16lookupAndVersions(c)
	}
}

// c16lookupAndVersions:
//
//	R5  "creating a shard group is a no-op when a live group already contains the
//	    timestamp" rests on a lookup that examines EVERY group (groups of different
//	    durations, deleted ones and other engine kinds are interleaved in the
//	    list, so no ordering argument may cut the scan short) and answers only
//	    with a group that Contains the timestamp.
//	R6  a measurement's version counter (MstVersions) outlives the measurement:
//	    it is what keeps a re-created name from being handed out twice.
func c16lookupAndVersions(c *an.Ctx) {
	const M = metaPkg
	{
		r := c.Rule("C16.R1", "K-PREDSHAPE", M+": IndexGroupInfo.Contains / Overlaps are the half-open span tests (same shape as the shard-group ones)")
		if f := fn(r, M+":IndexGroupInfo.Contains"); f != nil {
			f.PredShape(r, 0, "!`p0<recv.StartTime` & `p0<recv.EndTime`", "Contains ⇔ start ≤ t < end")
		}
		if f := fn(r, M+":IndexGroupInfo.Overlaps"); f != nil {
			f.PredShape(r, 0, "!`p1<recv.StartTime` & `p0<recv.EndTime`", "Overlaps(min,max) ⇔ start ≤ max ∧ min < end")
		}
	}
	r := c.Rule("C16.R5", "K-LOOPSELECT+K-GUARD", M+":(*RetentionPolicyInfo).ShardGroupByTimestampAndEngineType scans every group and returns only a group that contains the timestamp")
	if f := fn(r, M+":RetentionPolicyInfo.ShardGroupByTimestampAndEngineType"); f != nil {
		found := f.Find(an.MReturn("of a group", func(g *an.Fn, rs *ast.ReturnStmt) bool {
			return len(rs.Results) == 1 && !an.IsNilIdent(g.Info, rs.Results[0])
		}))
		r.AddSites(found.Len())
		if found.Len() == 0 {
			r.Fail(f.Name+": no result", c.P.Pos(f.Body.Pos()), "no return of a group found")
		} else {
			f.Guarded(r, found, "a group is returned only if it Contains(timestamp)", an.AtomLike(`\.Contains\(p0\)$`, true))
			f.Guarded(r, found, "a deleted group is never returned", an.AtomLike(`\.Deleted\(\)$`, false))
		}
		// the scan: one loop whose condition is the index bound only, no break
		loops := 0
		ast.Inspect(f.Body, func(n ast.Node) bool {
			switch x := n.(type) {
			case *ast.ForStmt:
				loops++
				if x.Cond != nil {
					bad := false
					ast.Inspect(x.Cond, func(k ast.Node) bool {
						if _, ok := k.(*ast.SelectorExpr); ok {
							// len(rpi.ShardGroups) is the only selector a bound may mention
							if p, ok := f.Parent(k).(*ast.CallExpr); !ok || types.ExprString(p.Fun) != "len" {
								bad = true
							}
							return false
						}
						return true
					})
					if bad {
						r.Fail(f.Name+": scan bounded by element data", c.P.Pos(x.Cond.Pos()), "the lookup loop stops under `%s`, which depends on the groups' own times: groups of different durations, deleted groups and other engine kinds are interleaved in the list, so a live group containing the timestamp can lie beyond the stopping point and a duplicate overlapping group is created", types.ExprString(x.Cond))
					}
				}
				ast.Inspect(x.Body, func(k ast.Node) bool {
					if b, ok := k.(*ast.BranchStmt); ok && b.Tok.String() == "break" {
						r.Fail(f.Name+": scan left early", c.P.Pos(b.Pos()), "the lookup loop is left by break before every group was examined")
					}
					return true
				})
			case *ast.RangeStmt:
				loops++
				ast.Inspect(x.Body, func(k ast.Node) bool {
					if b, ok := k.(*ast.BranchStmt); ok && b.Tok.String() == "break" {
						r.Fail(f.Name+": scan left early", c.P.Pos(b.Pos()), "the lookup loop is left by break before every group was examined")
					}
					return true
				})
			}
			return true
		})
		r.AddSites(loops)
		if loops != 1 {
			r.Fail(f.Name+": scan shape", c.P.Pos(f.Body.Pos()), "expected one scan loop over the shard groups, found %d", loops)
		}
		// nothing narrows the scan beforehand (sort.Search and friends)
		ast.Inspect(f.Body, func(n ast.Node) bool {
			if ce, ok := n.(*ast.CallExpr); ok {
				if callee := an.Callee(f.Info, ce); callee != nil && callee.Pkg() != nil && callee.Pkg().Path() == "sort" {
					r.Fail(f.Name+": bisection", c.P.Pos(ce.Pos()), "the lookup narrows the scan with sort.%s: the shard-group list is not ordered by a key that makes containment monotone (mixed durations, deleted groups)", callee.Name())
				}
			}
			return true
		})
	}

	r6 := c.Rule("C16.R6", "K-WHOWRITES", M+": MstVersions entries (per-name version counters) are never deleted, only whole retention policies are")
	n := 0
	for _, d := range c.P.AllDecls() {
		if !an.InPkg(d, M, "app/ts-meta/meta") {
			continue
		}
		ast.Inspect(d.Decl.Body, func(k ast.Node) bool {
			ce, ok := k.(*ast.CallExpr)
			if !ok || len(ce.Args) != 2 {
				return true
			}
			id, ok := ce.Fun.(*ast.Ident)
			if !ok || id.Name != "delete" {
				return true
			}
			n++
			if sel, ok := ast.Unparen(ce.Args[0]).(*ast.SelectorExpr); ok && sel.Sel.Name == "MstVersions" {
				r6.Fail(d.Name()+": delete(MstVersions)", c.P.Pos(ce.Pos()), "%s deletes a version counter: the next CREATE MEASUREMENT of that name starts again at version 0 and hands out an identifier (name_0000) that was already used", d.Name())
			}
			return true
		})
	}
	r6.AddSites(n)
	r6.Floor(10, "delete() calls in the catalogue packages")
	// the next version is derived from the surviving counter
	if f := fn(r6, M+":Data.createVersionMeasurement"); f != nil {
		mv := obj(r6, M+":RetentionPolicyInfo.MstVersions")
		if mv != nil {
			reads := f.Find(an.MRead("rp.MstVersions", mv))
			r6.AddSites(reads.Len())
			if reads.Len() == 0 {
				r6.Fail(f.Name+": version source", c.P.Pos(f.Body.Pos()), "createVersionMeasurement no longer derives the version from MstVersions")
			}
		}
	}
}

func init() {
	old := All["C16"].Run
	All["C16"].Run = func(c *an.Ctx) {
		old(c)
		c16ptViewFollowsCluster(c)
	}
	All["C16"].Rules += " R7"
}

// c16ptViewFollowsCluster — C16.R7.  When a data node joins, every database's partition view is
// extended to the cluster's partition count, and ExpandGroups then adds one shard per partition
// to the live shard groups of EVERY database.  The two walk the same databases; a database whose
// view is not extended (for whatever reason other than "already that long") gets shards owned by
// partition ids that are not in PtView[db] — a dangling reference in the catalogue.
func c16ptViewFollowsCluster(c *an.Ctx) {
	const M = "lib/util/lifted/influx/meta"
	r := c.Rule("C16.R7", "K-GUARD", M+":(*Data).expandDBPtView — the partition view is extended for every database; the only early return is 'already at the cluster partition count'")
	f := fn(r, M+":Data.expandDBPtView")
	if f == nil {
		return
	}
	upd := f.Find(call(r, M+":Data.updatePtStatus"))
	rets := f.Find(an.AnyReturn()).Filter("(explicit)", func(s an.Site) bool {
		rs, ok := s.Node.(*ast.ReturnStmt)
		return ok && rs.Return != f.Body.Rbrace // go/cfg adds an implicit return at the closing brace
	})
	r.AddSites(upd.Len() + rets.Len())
	if r.Failed() {
		return
	}
	if upd.Len() == 0 {
		r.Fail(f.Name+": no extension", c.P.Pos(f.Body.Pos()), "expandDBPtView no longer registers the new partitions")
		return
	}
	if rets.Len() > 0 {
		f.Guarded(r, rets, "early return only when the view already has the cluster's partition count", an.AtomLike(`^p1==uint32\(len\(.*DBPtView\(p0\)\)\)$`, true))
	}
}

// epochSentinel — C15.R8 / C16.R8.  MarshalTime encodes the zero time.Time AND 1970-01-01T00:00:00Z
// as 0.  Group boundaries are never the zero time, so the decoders of ShardGroupInfo and
// IndexGroupInfo read 0 back as the epoch.  Without that branch a group that starts or ends
// exactly at the epoch comes back from a snapshot as [year 1, …): the restored replica's groups
// are stretched, overlap, and it skips CreateShardGroup commands the other replicas execute.
func epochSentinel(c *an.Ctx, id string) {
	const M = "lib/util/lifted/influx/meta"
	r := c.Rule(id, "K-CONTRACT(writer/reader)", M+": ShardGroupInfo/IndexGroupInfo.unmarshal read an encoded 0 boundary back as the epoch (MarshalTime writes the epoch as 0)")
	n := 0
	for _, t := range []string{"ShardGroupInfo", "IndexGroupInfo"} {
		f := fn(r, M+":"+t+".unmarshal")
		if f == nil {
			continue
		}
		for _, fld := range []string{"StartTime", "EndTime"} {
			fo := obj(r, M+":"+t+"."+fld)
			if fo == nil {
				continue
			}
			epoch := f.Find(an.MStore(t+"."+fld+" = time.Unix(0, 0)", fo, func(g *an.Fn, e ast.Expr) bool {
				return strings.Contains(g.Canon(e), "time.Unix(0,0)")
			}))
			n += epoch.Len()
			if epoch.Len() == 0 {
				r.Fail(t+".unmarshal: "+fld+" at the epoch", c.P.Pos(f.Body.Pos()), "%s.unmarshal no longer maps an encoded 0 %s to the epoch: MarshalTime writes both the zero time and the epoch as 0, so a boundary exactly at the epoch is restored as year 1", t, fld)
				continue
			}
			f.Guarded(r, epoch, fld+" becomes the epoch exactly when the encoded value is 0", an.AtomLike(`^0==p0\.Get`+fld+`\(\)$`, true))
		}
	}
	r.AddSites(n)
}

func init() {
	old16 := All["C16"].Run
	All["C16"].Run = func(c *an.Ctx) {
		old16(c)
		epochSentinel(c, "C16.R8")
	}
	All["C16"].Rules += " R8"
	old15 := All["C15"].Run
	All["C15"].Run = func(c *an.Ctx) {
		old15(c)
		epochSentinel(c, "C15.R8")
	}
	All["C15"].Rules += " R8"
	addLevel("C15", "the group decoders read an encoded 0 boundary back as the epoch (writer/reader sentinel agreement with MarshalTime).")
	addLevel("C16", "the group decoders read an encoded 0 boundary back as the epoch (a restored catalogue keeps groups that touch the epoch aligned and disjoint).")
}

func init() {
	old := All["C16"].Run
	All["C16"].Run = func(c *an.Ctx) {
		old(c)
		c16mergeReadsBeforeMoving(c)
	}
	All["C16"].Rules += " R9"
	addLevel("C16", "mergeShardGroup reads the end time of the last merged group before any group is moved down in the list (after the move that slot holds a later group, and the surviving group would overlap it).")
}

// c16mergeReadsBeforeMoving — C16.R9.  Merging the groups [startLoc..endLoc] keeps the first one and
// extends it to the end of the last one; the groups behind are moved down.  The end time must be
// taken from slot endLoc BEFORE anything is moved: afterwards the slot holds a later group.
func c16mergeReadsBeforeMoving(c *an.Ctx) {
	const M = "lib/util/lifted/influx/meta"
	r := c.Rule("C16.R9", "K-ORDER", M+":(*Data).mergeShardGroup — the end time of slot endLoc is read before any element of the list is moved")
	f := fn(r, M+":Data.mergeShardGroup")
	if f == nil {
		return
	}
	reads := f.Find(an.MNode("read of ShardGroups[endLoc].EndTime", func(g *an.Fn, m ast.Node) bool {
		sel, ok := m.(*ast.SelectorExpr)
		if !ok || sel.Sel.Name != "EndTime" {
			return false
		}
		// not the target of an assignment
		if as, ok := g.Parent(sel).(*ast.AssignStmt); ok {
			for _, l := range as.Lhs {
				if l == ast.Expr(sel) {
					return false
				}
			}
		}
		return g.Canon(sel) == "p2.ShardGroups[p1].EndTime"
	}))
	moves := f.Find(an.MNode("move inside ShardGroups", func(g *an.Fn, m ast.Node) bool {
		switch x := m.(type) {
		case *ast.CallExpr:
			if id, ok := x.Fun.(*ast.Ident); ok && id.Name == "copy" && len(x.Args) == 2 {
				return strings.HasPrefix(g.Canon(x.Args[0]), "p2.ShardGroups[")
			}
		case *ast.AssignStmt:
			for i, l := range x.Lhs {
				if ix, ok := ast.Unparen(l).(*ast.IndexExpr); ok && g.Canon(ix.X) == "p2.ShardGroups" && i < len(x.Rhs) {
					return true
				}
			}
		}
		return false
	}))
	r.AddSites(reads.Len() + moves.Len())
	if reads.Len() == 0 || moves.Len() == 0 {
		r.Fail(f.Name+": shape", c.P.Pos(f.Body.Pos()), "expected the read of ShardGroups[endLoc].EndTime and the move of the tail (found %d / %d)", reads.Len(), moves.Len())
		return
	}
	f.NeverAfter(r, moves, reads, "no read of slot endLoc after the tail was moved")
}

func init() {
	old := All["C16"].Run
	All["C16"].Run = func(c *an.Ctx) {
		old(c)
		c16optionalFieldsStayOptional(c)
	}
	All["C16"].Rules += " R10"
	addLevel("C16", "ALTER RETENTION POLICY applies only the durations the command carries: a protobuf getter (0 for an absent field) of an optional duration / replica field is read only under the field's presence test.")
}

// c16optionalFieldsStayOptional — C16.R10.  The update command has optional fields; Get<F>() returns
// 0 when F is absent, and 0 means "default for the retention duration" to UpdateRetentionPolicy.
// Reading such a getter without testing `v.F != nil` turns "leave as it is" into "reset".
func c16optionalFieldsStayOptional(c *an.Ctx) {
	r := c.Rule("C16.R10", "K-GUARD", metaPkg+":ApplyUpdateRetentionPolicy — Get<Duration|ReplicaN>() of an optional field only under `v.<field> != nil`")
	f := fn(r, metaPkg+":ApplyUpdateRetentionPolicy")
	if f == nil {
		return
	}
	n := 0
	ast.Inspect(f.Body, func(m ast.Node) bool {
		ce, ok := m.(*ast.CallExpr)
		if !ok || len(ce.Args) != 0 {
			return true
		}
		sel, ok := ce.Fun.(*ast.SelectorExpr)
		if !ok || !strings.HasPrefix(sel.Sel.Name, "Get") {
			return true
		}
		field := strings.TrimPrefix(sel.Sel.Name, "Get")
		if !strings.HasSuffix(field, "Duration") && field != "ReplicaN" {
			return true
		}
		// the command's field of that name is a pointer (optional)
		t := f.Info.TypeOf(sel.X)
		if t == nil {
			return true
		}
		if p, ok := t.Underlying().(*types.Pointer); ok {
			t = p.Elem()
		}
		st, ok := t.Underlying().(*types.Struct)
		if !ok {
			return true
		}
		optional := false
		for i := 0; i < st.NumFields(); i++ {
			if st.Field(i).Name() == field {
				_, optional = st.Field(i).Type().Underlying().(*types.Pointer)
			}
		}
		if !optional {
			return true
		}
		n++
		one := f.Find(an.MNode("call "+sel.Sel.Name, func(g *an.Fn, k ast.Node) bool { return k == ast.Node(ce) }))
		f.Guarded(r, one, sel.Sel.Name+"() only when the field is present", an.AtomLike(`^nil==`+regexp.QuoteMeta(f.Canon(sel.X))+`\.`+field+`$`, false))
		return true
	})
	r.AddSites(n)
	r.Floor(3, "getters of optional duration/replica fields")
}
