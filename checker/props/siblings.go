package props

import (
	"fmt"
	"go/ast"
	"sort"
	"strings"

	"verifcheck/an"
)

// SiblingFamily: methods of the same name on different receiver types of one package (parallel
// implementations of one job: the writers of two engines, the reducers of one function family).
type SiblingFamily struct {
	Pkg, Name string
	Members   []*an.FuncSrc
}

// siblingFamilies lists the families of the module whose members have bodies of comparable size.
func siblingFamilies(c *an.Ctx) []SiblingFamily {
	by := map[string][]*an.FuncSrc{}
	for _, d := range c.P.AllDecls() {
		if d.Decl.Recv == nil || d.Decl.Body == nil || len(d.Decl.Body.List) < 4 {
			continue
		}
		file := c.P.Fset.Position(d.Decl.Pos()).Filename
		if strings.HasSuffix(file, "_test.go") || strings.HasSuffix(file, ".pb.go") || strings.Contains(file, "/lifted/vm/") {
			continue
		}
		key := d.Pkg.PkgPath + "\x00" + d.Decl.Name.Name
		by[key] = append(by[key], d)
	}
	var out []SiblingFamily
	for k, ms := range by {
		if len(ms) < 2 || len(ms) > 8 {
			continue
		}
		parts := strings.SplitN(k, "\x00", 2)
		sort.Slice(ms, func(i, j int) bool { return an.CallerName(ms[i]) < an.CallerName(ms[j]) })
		out = append(out, SiblingFamily{Pkg: strings.TrimPrefix(parts[0], an.Mod), Name: parts[1], Members: ms})
	}
	sort.Slice(out, func(i, j int) bool { return out[i].Pkg+out[i].Name < out[j].Pkg+out[j].Name })
	return out
}

// SiblingCensus compares, inside every family, the guard sets of the calls all members make
// exactly once.  A line is printed per callee on which the members disagree.
func SiblingCensus(c *an.Ctx) []string {
	var out []string
	fams, pairs := 0, 0
	for _, fam := range siblingFamilies(c) {
		var profs []*an.SiblingProfile
		for _, m := range fam.Members {
			f := c.P.Fn(m)
			if f == nil {
				continue
			}
			profs = append(profs, f.Profile())
		}
		if len(profs) < 2 {
			continue
		}
		// callees every member calls exactly once
		shared := map[string]bool{}
		for k, v := range profs[0].Calls {
			if len(v) == 1 {
				shared[k] = true
			}
		}
		for _, p := range profs[1:] {
			for k := range shared {
				if len(p.Calls[k]) != 1 {
					delete(shared, k)
				}
			}
		}
		if len(shared) < 3 {
			continue
		}
		fams++
		keys := make([]string, 0, len(shared))
		for k := range shared {
			keys = append(keys, k)
		}
		sort.Strings(keys)
		for _, k := range keys {
			pairs++
			vals := map[string][]string{}
			for _, p := range profs {
				vals[p.Calls[k][0]] = append(vals[p.Calls[k][0]], p.Fn.Name)
			}
			if len(vals) > 1 {
				line := fmt.Sprintf("%s %s: call %s guarded differently:", fam.Pkg, fam.Name, k)
				var vs []string
				for v, fs := range vals {
					vs = append(vs, fmt.Sprintf("\n      %v under {%s}", fs, v))
				}
				sort.Strings(vs)
				out = append(out, line+strings.Join(vs, ""))
			}
		}
	}
	out = append(out, fmt.Sprintf("%d families with >= 3 shared single calls, %d compared calls", fams, pairs))
	return out
}

var _ = ast.Inspect
