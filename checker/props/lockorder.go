package props

import (
	"fmt"
	"sort"
	"strings"

	"verifcheck/an"
)

// lockOrder is the thorough-tier K-LOCKORDER rule shared by C01 and C04.
func lockOrder(c *an.Ctx, rule string) {
	r := c.Rule(rule, "K-LOCKORDER", "engine, engine/immutable, engine/mutable, engine/index/tsi: the acquired-while-holding graph over mutex fields is acyclic (self-edges between instances of one class ignored)")
	pkgs := []string{"engine", "engine/immutable", "engine/mutable", "engine/index/tsi"}
	edges, nfn := c.P.LockOrder(pkgs)
	r.AddSites(len(edges))
	seen := map[string]bool{}
	var pairs []string
	for _, e := range edges {
		if e.First == e.Second {
			continue
		}
		k := an.LockClass(e.First) + " → " + an.LockClass(e.Second)
		if !seen[k] {
			seen[k] = true
			pairs = append(pairs, k)
		}
	}
	sort.Strings(pairs)
	c.Extra["lock_order_functions"] = nfn
	c.Extra["lock_order_edges"] = pairs
	for _, cyc := range an.LockCycles(edges) {
		var parts, names []string
		for _, e := range cyc {
			via := ""
			if e.Via != "" {
				via = " via " + e.Via
			}
			parts = append(parts, fmt.Sprintf("%s → %s in %s (%s%s)", an.LockClass(e.First), an.LockClass(e.Second), e.Fn, e.Pos, via))
			names = append(names, an.LockClass(e.First))
		}
		sort.Strings(names)
		r.Fail("cycle "+strings.Join(names, ","), cyc[0].Pos, "lock-order cycle: %s", strings.Join(parts, " ; "))
	}
	r.Floor(5, "acquired-while-holding edges")
}
