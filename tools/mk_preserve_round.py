#!/usr/bin/env python3
"""Prepare a round of property-PRESERVING changes: one scratch worktree of /repo and one prompt per property.
usage: mk_preserve_round.py <round-number> [ids...]  → /tmp/pres<round>/{C01,…}/ and /tmp/pres<round>/prompts/C01.md"""
import json, os, sys, glob, subprocess
V = os.path.dirname(os.path.dirname(os.path.abspath(__file__)))
rnd = sys.argv[1]; ids = sys.argv[2:]
ROOT = f"/tmp/pres{rnd}"
os.makedirs(ROOT + "/prompts", exist_ok=True)
TEMPLATE = open(V + "/tools/preserve_prompt_template.md").read()
for l in open(V + "/properties.jsonl"):
    if not l.strip():
        continue
    p = json.loads(l); pid = p["id"]
    if ids and pid not in ids:
        continue
    titles = []
    for d in sorted(glob.glob(f"{V}/preserve/{pid}-[a-z][0-9]")):
        try:
            titles.append(json.load(open(d + "/meta.json")).get("title", ""))
        except Exception:
            pass
    wt = f"{ROOT}/{pid}"
    if not os.path.exists(wt):
        subprocess.check_call(["git", "-C", "/repo", "worktree", "add", "--detach", wt, "HEAD"], stdout=subprocess.DEVNULL)
    os.makedirs(f"{ROOT}/{pid}.out", exist_ok=True)
    txt = TEMPLATE.replace("{{ID}}", pid).replace("{{ROOT}}", ROOT).replace("{{PROPERTY}}", json.dumps(p, indent=1))
    txt = txt.replace("{{EXPLORED}}", "\n".join("  - " + t for t in titles if t))
    open(f"{ROOT}/prompts/{pid}.md", "w").write(txt)
    print(pid, len(titles), "earlier commits listed")
