#!/usr/bin/env python3
"""Regenerates /verif/MANIFEST.json from the armed properties reported by `vcheck -list`.
Properties that are not armed are listed under not_applicable with the reason kept in NA below."""
import json, subprocess, os, sys
V = os.path.dirname(os.path.dirname(os.path.abspath(__file__)))
env = dict(os.environ, GOFLAGS="-mod=mod", GOPROXY="off")
subprocess.check_call(["go", "build", "-o", V + "/bin/vcheck", "./cmd/vcheck"], cwd=V + "/checker", env=env)
armed = json.loads(subprocess.check_output([V + "/bin/vcheck", "-list"]))
NA = json.load(open(V + "/tools/not_applicable.json"))
props = [json.loads(l) for l in open(V + "/properties.jsonl")]
checks, na = [], []
for p in props:
    pid = p["id"]
    if pid in armed:
        a = armed[pid]
        checks.append({
            "property_id": pid,
            "quick_cmd": f"./run.sh {pid} quick",
            "thorough_cmd": f"./run.sh {pid} thorough",
            "evidence_file": f"/verif/evidence/{pid}.json",
            "replay_cmd_template": f"./run.sh {pid} quick -replay {{path}}",
            "engine": "vcheck",
            "level_claimed": {"category": "other", "text": a["level"], "design_ref": f"DESIGN.md sections 5 ({pid}, plan) and 10 (as built); RULES.md lists every obligation"},
            "level_note": "Armed rules: " + a["rules"] + ". Trusted base: Go type checker, x/tools v0.29.0 go/cfg, the rule tables in checker/props (anchors, allowed callers, frozen exceptions, each confirmed by reading). " +
                          "Every syntactic CFG path is treated as feasible; interface calls resolve to the interface method. Decides the structural clause only, never the run-time behaviour as a whole.",
            "technique": a["technique"],
        })
    else:
        na.append({"property_id": pid, "reason": NA.get(pid, "rules of DESIGN.md section 5 not armed yet (section 9 criteria); no claim is made")})
m = {
    "version": 1,
    "setup_cmd": "cd /verif/checker && GOFLAGS=-mod=mod GOPROXY=off go build -o /verif/bin/vcheck ./cmd/vcheck && cd /repo && GOFLAGS=-mod=mod GOPROXY=off go build ./... ",
    "hooks": {"guard": "verif", "enable": "none: static analysis needs no instrumentation; no hook commits exist", "baseline_off_cmd": "cd /repo && go test -vet=off -count=1 ./...", "source_commits": [], "add_only": True},
    "engines": [{"name": "vcheck", "path": "/verif/checker", "serves_properties": sorted(armed.keys()),
                 "kind_free_text": "repository-specific static analyser (go/packages + go/types + go/cfg): ordering cuts, locksets, who-calls/who-writes, table/field-coverage/codec agreement, predicate normal forms"}],
    "checks": checks,
    "not_applicable": na,
    "notes": "All claims are level 'other': structural necessary conditions decided on every path / site of named constructs of /repo's working tree (see DESIGN.md). known_findings.jsonl lists genuine unrepaired defects; fix: commits in /repo are recorded there as fixed entries.",
}
json.dump(m, open(V + "/MANIFEST.json", "w"), indent=1)
print("MANIFEST.json:", len(checks), "checks,", len(na), "not_applicable")
