#!/usr/bin/env python3
"""Regenerate checker/props/anchors_frozen.go from the pinned tree (vcheck -dump-anchors).
Run only when rules were added or after a reviewed change of /repo: the table is the
reference the anchor relocation compares a later tree with."""
import json, subprocess, os, sys
V = os.path.dirname(os.path.dirname(os.path.abspath(__file__)))
env = dict(os.environ, GOFLAGS="-mod=mod", GOPROXY="off")
subprocess.check_call(["go", "build", "-o", "/tmp/vcheck.anch", "./cmd/vcheck"], cwd=V + "/checker", env=env)
import re, glob
words = set()
for g in glob.glob(V + "/checker/props/*.go"):
    if g.endswith("anchors_frozen.go") or g.endswith("allowed_up.go"):
        continue
    for lit in re.findall(r'`[^`]*`|"(?:[^"\\]|\\.)*"', open(g).read()):
        words.update(re.findall(r"[A-Za-z_]\w{2,}", lit))
open("/tmp/vcheck.vocab", "w").write("\n".join(sorted(words)))
out = subprocess.run(["/tmp/vcheck.anch", "-dump-anchors", "-vocab", "/tmp/vcheck.vocab", "-repo", "/repo", "-verif", "/tmp"], capture_output=True, text=True, env=env).stdout
os.remove("/tmp/vcheck.anch"); os.remove("/tmp/vcheck.vocab")
d = json.loads(out[out.index("{"):])
def gostr(x): return json.dumps(x)
def golist(xs): return "[]string{" + ", ".join(gostr(x) for x in xs) + "}"
with open(V + "/checker/props/anchors_frozen.go", "w") as f:
    f.write('''package props

import "verifcheck/an"

// Unexported functions and struct fields that rules name as anchors, as the pinned tree had them
// (generated: tools/gen_anchors.py, from vcheck -dump-anchors).
// Functions: their callers and the unexported same-package functions each of those callers
// called.  When such an anchor disappears under its name (rename, method turned into a
// function, …), Program.Obj takes the unique NEW unexported callee with the same number of
// parameters that every surviving caller calls for it — a renamed helper keeps its rules.
// Fields: their type and the field names of their struct; a vanished field is re-found as the
// unique new field of that struct with the same type.
func init() {
	an.FrozenAnchors = map[string]an.FrozenAnchor{
''')
    for spec in sorted(d["funcs"]):
        a = d["funcs"][spec]
        callees = ", ".join(gostr(k) + ": " + golist(v)[len("[]string"):] for k, v in sorted(a["Callees"].items()))
        f.write("\t\t%s: {Callers: %s, Callees: map[string][]string{%s}, NParams: %d, Own: %s},\n" % (gostr(spec), golist(a["Callers"]), callees, a["NParams"], golist(a.get("Own") or [])))
    f.write("\t}\n\tan.FrozenFields = map[string]an.FrozenField{\n")
    for spec in sorted(d["fields"]):
        a = d["fields"][spec]
        f.write("\t\t%s: {Type: %s},\n" % (gostr(spec), gostr(a["Type"])))
    f.write("\t}\n\tan.FrozenStructs = map[string][]string{\n")
    for spec in sorted(d["structs"]):
        f.write("\t\t%s: %s,\n" % (gostr(spec), golist(d["structs"][spec])[len("[]string"):]))
    f.write("\t}\n}\n")
subprocess.check_call(["gofmt", "-w", V + "/checker/props/anchors_frozen.go"])
print(len(d["funcs"]), "function anchors,", len(d["fields"]), "field anchors")

# anchor files of the properties (scope of the idiom sweeps)
out = ['package props\n', '// Anchor files of each property as given in properties.jsonl (generated: tools/gen_anchors.py).\n', 'var propAnchorFiles = map[string][]string{\n']
for l in open(V + "/properties.jsonl"):
    if l.strip():
        d = json.loads(l)
        out.append('\t%s: {%s},\n' % (json.dumps(d['id']), ', '.join(json.dumps(f) for f in d['anchors']['files'])))
out.append('}\n')
open(V + "/checker/props/anchor_files.go", "w").write(''.join(out))
subprocess.check_call(["gofmt", "-w", V + "/checker/props/anchor_files.go"])
