#!/bin/bash
# usage: tools/run_parallel.sh seeds|preserve [N]   — runs N shards of run_seeds.py --all / run_preserve.py in parallel, then merges
cd "$(dirname "$0")/.."
KIND=${1:?seeds|preserve}; N=${2:-5}
pids=()
for k in $(seq 0 $((N-1))); do
  if [ "$KIND" = seeds ]; then python3 tools/run_seeds.py --all --shard $k/$N > /tmp/par_$KIND.$k.log 2>&1 &
  else python3 tools/run_preserve.py --shard $k/$N > /tmp/par_$KIND.$k.log 2>&1 & fi
  pids+=($!)
done
for p in "${pids[@]}"; do wait $p; done
if [ "$KIND" = seeds ]; then python3 tools/run_seeds.py --merge; else python3 tools/run_preserve.py --merge; fi
# the scratch builds of the variants fill the go build cache (≈0.35 GB per variant): drop what was not used for two hours
find "$(go env GOCACHE)" -type f -mmin +120 -delete 2>/dev/null || true
