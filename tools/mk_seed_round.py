#!/usr/bin/env python3
"""Prepare a round of independent seeding: one scratch worktree of /repo and one prompt file per property.
usage: mk_seed_round.py <round-number> [ids...]   → /tmp/seed<round>/{C01,…}/ (worktrees), /tmp/seed<round>/prompts/C01.md
The prompt contains ONLY the property's text, workspace rules, and the titles of the seeds of earlier rounds
("already explored"); nothing of the verification machinery."""
import json, os, sys, glob, subprocess
V = os.path.dirname(os.path.dirname(os.path.abspath(__file__)))
rnd = sys.argv[1]; ids = sys.argv[2:]
ROOT = f"/tmp/seed{rnd}"
os.makedirs(ROOT + "/prompts", exist_ok=True)
props = [json.loads(l) for l in open(V + "/properties.jsonl") if l.strip()]
TEMPLATE = open(V + "/tools/seed_prompt_template.md").read()
for p in props:
    pid = p["id"]
    if ids and pid not in ids:
        continue
    titles = []
    for d in sorted(glob.glob(f"{V}/seeded/{pid}-m*")):
        try:
            titles.append(json.load(open(d + "/meta.json")).get("title", ""))
        except Exception:
            pass
    wt = f"{ROOT}/{pid}"
    if not os.path.exists(wt):
        subprocess.check_call(["git", "-C", "/repo", "worktree", "add", "--detach", wt, "HEAD"], stdout=subprocess.DEVNULL)
    os.makedirs(f"{ROOT}/{pid}.out", exist_ok=True)
    txt = TEMPLATE.replace("{{ID}}", pid).replace("{{ROOT}}", ROOT).replace("{{ROUND}}", str(rnd))
    txt = txt.replace("{{PROPERTY}}", json.dumps(p, indent=1)).replace("{{EXPLORED}}", "\n".join("  - " + t for t in titles if t))
    open(f"{ROOT}/prompts/{pid}.md", "w").write(txt)
    print(pid, len(titles), "explored")
