#!/usr/bin/env python3
"""Confirms seeded defects delivered by independent sub-agents (under /tmp/seed/<ID>.out/m<k>/) in a scratch
worktree of /repo (never /repo itself) and stores the confirmed ones as /verif/seeded/<ID>-m<k>/.
For each seed: demo passes on the unchanged tree, patch applies and compiles, demo fails with the patch, and
the existing tests of the touched packages show no NEW failure compared with the unchanged tree.
usage: confirm_seeds.py [--src /tmp/seed2 --offset 2] C01 C03 ...   (property ids; default: all found).
--src names the delivery root of a later round, --offset k stores its m1/m2 as m<1+k>/m<2+k>."""
import json, os, subprocess, sys, shutil, glob, re
V = os.path.dirname(os.path.dirname(os.path.abspath(__file__)))
SCR = os.environ.get("VCONFIRM_DIR", "/tmp/vconfirm")
# tests that fail (or flake) on the pristine tree in this sandbox; never counted as a new failure
KNOWN_PRISTINE = {"TestLazyInitError", "TestBuildDirTree", "TestHandlerPromRead", "TestReliabilityLog"}
CACHE = "/tmp/vconfirm.cache"
env = dict(os.environ, GOFLAGS="-mod=mod", GOPROXY="off")
os.makedirs(CACHE, exist_ok=True)
def isolated(cmd):
    """run a test command in its own network namespace: the suites bind fixed local ports"""
    return "unshare -n sh -c " + json.dumps("ip link set lo up; " + cmd)
def sh(cmd, cwd=None, timeout=3600):
    try:
        p = subprocess.run(cmd, shell=True, text=True, capture_output=True, cwd=cwd, env=env, timeout=timeout)
        return p.returncode, p.stdout + p.stderr
    except subprocess.TimeoutExpired as e:
        return 124, "TIMEOUT"
def failing_tests(pkg):
    skip = "-skip 'TestEngine_OpenLimitShardError'" if pkg == "./engine" else ""
    rc, out = sh(isolated(f"go test {pkg} -count=1 -timeout 45m {skip} -json 2>&1"), cwd=SCR, timeout=3000)
    fails, passes = set(), 0
    for line in out.splitlines():
        try:
            ev = json.loads(line)
        except Exception:
            continue
        if ev.get("Test") and ev.get("Action") == "fail":
            fails.add(ev["Test"].split("/")[0])
        if ev.get("Test") and ev.get("Action") == "pass" and "/" not in ev["Test"]:
            passes += 1
        if not ev.get("Test") and ev.get("Action") == "fail":
            fails.add("<package>")
    return fails, passes
args = sys.argv[1:]
SRC, OFFSET = "/tmp/seed", 0
if "--src" in args:
    i = args.index("--src"); SRC = args[i + 1]; del args[i:i + 2]
if "--offset" in args:
    i = args.index("--offset"); OFFSET = int(args[i + 1]); del args[i:i + 2]
args = [a for a in args if not a.startswith("--")]
ids = args or sorted({os.path.basename(p)[:3] for p in glob.glob(SRC + "/C*.out")})
sh(f"git -C /repo worktree remove --force {SCR}")
shutil.rmtree(SCR, ignore_errors=True)
rc, out = sh(f"git -C /repo worktree add --detach {SCR} HEAD")
assert rc == 0, out
head = sh("git -C /repo rev-parse --short HEAD")[1].strip()
results = []
try:
    for pid in ids:
        for md in sorted([d for d in glob.glob(f"{SRC}/{pid}.out/m[0-9]") if os.path.isdir(d)]):
            k = os.path.basename(md)
            if OFFSET:
                k = "m%d" % (int(k[1:]) + OFFSET)
            dest = f"{V}/seeded/{pid}-{k}"
            if os.path.exists(dest + "/meta.json") and "--force" not in sys.argv:
                print(pid, k, "already stored"); continue
            try:
                meta = json.load(open(md + "/meta.json"))
            except Exception as e:
                print(pid, k, "no meta.json", e); continue
            patch = md + "/patch.diff"
            demo_src = None
            for cand in ("demo_test.go",):
                if os.path.exists(md + "/" + cand):
                    demo_src = md + "/" + cand
            if not os.path.exists(patch) or not demo_src:
                print(pid, k, "incomplete delivery"); continue
            loc = meta.get("demo_location", "").strip("/").lstrip("./")
            run_cmd = meta.get("demo_run_cmd", "")
            sh("git checkout -- . && git clean -fdq", cwd=SCR)
            demo_dst = os.path.join(SCR, loc, f"zz_seed_{pid.lower()}_{k}_demo_test.go")
            shutil.copy(demo_src, demo_dst)
            if "-run" not in run_cmd:
                print(pid, k, "no demo_run_cmd"); continue
            rc0, out0 = sh(isolated(run_cmd + " 2>&1"), cwd=SCR, timeout=2400)
            rcA, outA = sh(f"git apply {patch}", cwd=SCR)
            if rcA != 0:
                print(pid, k, "PATCH DOES NOT APPLY", outA[-300:]); continue
            rcB, outB = sh("go build ./... 2>&1", cwd=SCR, timeout=2400)
            rc1, out1 = sh(isolated(run_cmd + " 2>&1"), cwd=SCR, timeout=2400)
            files = [l[6:] for l in open(patch).read().splitlines() if l.startswith("+++ b/")]
            pkgs = sorted({"./" + os.path.dirname(f) for f in files if f.endswith(".go") and not f.endswith("_test.go")})
            os.remove(demo_dst)
            new_fail = {}
            for pkg in pkgs:
                cf = f"{CACHE}/{head}_{pkg.replace('/','_')}.json"
                patched, npass = failing_tests(pkg)
                if os.path.exists(cf):
                    base = set(json.load(open(cf)))
                else:
                    # (no git stash: the stash list is shared by all worktrees of /repo)
                    sh("git checkout -- . && git clean -fdq", cwd=SCR)
                    b, _ = failing_tests(pkg)
                    sh(f"git apply {patch}", cwd=SCR)
                    base = b
                    json.dump(sorted(base), open(cf, "w"))
                nf = sorted(patched - base - KNOWN_PRISTINE)
                new_fail[pkg] = {"new_failures": nf, "pristine_failures": sorted(base), "passes_with_patch": npass}
            ok = rc0 == 0 and rcB == 0 and rc1 != 0 and all(not v["new_failures"] for v in new_fail.values())
            res = {"property": pid, "seed": k, "confirmed": ok, "demo_passes_unchanged": rc0 == 0, "compiles": rcB == 0,
                   "demo_fails_with_patch": rc1 != 0, "existing_tests": new_fail, "repo_head": head,
                   "ran": [run_cmd + " (unchanged tree, then with patch)", "go build ./...", "go test <touched pkgs> -count=1 -json, failing-test sets compared with the unchanged tree"]}
            print(pid, k, "CONFIRMED" if ok else "NOT CONFIRMED", json.dumps({x: res[x] for x in ("demo_passes_unchanged", "compiles", "demo_fails_with_patch")}), {p: v["new_failures"] for p, v in new_fail.items()})
            if not ok:
                open(f"{SRC}/{pid}.out/{k}.confirm.log", "w").write("== unchanged demo\n" + out0[-3000:] + "\n== build\n" + outB[-2000:] + "\n== patched demo\n" + out1[-3000:])
            results.append(res)
            if ok:
                os.makedirs(dest, exist_ok=True)
                shutil.copy(patch, dest + "/patch.diff")
                shutil.copy(demo_src, dest + "/demo_test.go")
                meta_out = {"property": pid, "title": meta.get("title"), "what_breaks": meta.get("what_breaks"), "needs_to_manifest": meta.get("needs_to_manifest"),
                            "files_changed": files, "demo_location": loc, "demo_run_cmd": run_cmd, "author": "independent sub-agent given only the property text",
                            "confirmation": res}
                json.dump(meta_out, open(dest + "/meta.json", "w"), indent=1)
finally:
    sh(f"git -C /repo worktree remove --force {SCR}")
print("done", len(results))
